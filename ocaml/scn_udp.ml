(* C12 scenario "udp": one client call over a real loopback UDP socket; the
   device answers with the reply bytes cut into the prescribed datagrams.
   input:  scheme unit e w dgrams op...      (scheme: udp | rtuoverudp)
   output: result request-datagrams
   The model runs the call through the udpSockWrapper model (Model/Udp.v) on
   the datagram list; it is cross-checked against the flat model on the
   concatenation of the datagrams, each cut to 260 bytes (c12_udp_client_call_any). *)
open Model
open Conv
open Lib_wire

let udp inp impl =
  match inp with
  | scheme :: unit :: e :: w :: dgrams :: optoks ->
    let cfg = { c_unit = n_of_hex unit; c_endian = endian_of e; c_word = word_of w } in
    let framing = if scheme = "udp" then FMbap else FRtu in
    let ds = chunks_of dgrams in
    let o = op_of_tokens optoks in
    let u = usw_init ds in
    let r = client_call_u framing cfg N0 o Stall u in
    let f = client_call framing cfg N0 o Stall (usw_flat u) in
    let agree = r.gcr_res = f.cr_res && r.gcr_writes = f.cr_writes && usw_flat r.gcr_rest = f.cr_rest in
    let rs = result_str r.gcr_res in
    let ws = csv_of_list hex_of_bytes r.gcr_writes in
    let m = rs ^ " " ^ ws in
    let p = (match String.split_on_char ' ' impl with
        | [ir; iw] -> if agree && project ir = project rs && iw = ws then "1" else "0"
        | _ -> "0") in
    ((if agree then m else m ^ " udp-and-flat-model-differ"), p)
  | _ -> failwith "udp: bad input"

let () = Registry.register "udp" udp
