(* C14 scenario with handshakes that are still PENDING while later peers of the
   same server connect: tlspend (harness/cmd/implrun/c14p_pending.go).

   The model is the extracted Model/TlsPending.v (tls_server_pending: NewServer,
   then for every accepted socket a place of MaxClients and handleTCPClient in
   a goroutine of its own; a peer that stalls in its handshake keeps its place
   while the later steps arrive and is decided, when it completes, like any
   other; a peer that goes away has shown the server neither a certificate nor
   a version) run with the crypto/tls oracle of scn_tls.ml; crypto/x509 is the
   function of (configured pool, presented chain) of scn_tlshist.ml.

   tlspend: keyset pool maxc step...
            step = pace;chain;ver;verifies;request
            pace = w | <stall>-c | <stall>-x   (stall = s | h<k> | f: how far the
                   peer gets before it stalls; the model does not distinguish)
            -> per step "<handler invocations>/<response 0|1>", joined by ","

   P is computed from the property text, not from the model: a step whose peer
   completes its handshake (w, -c) is served (one invocation, the response) iff
   the chain it presented verifies against the configured client CAs and the
   version is 1.2 or 1.3 - whatever handshakes are pending; a peer that does
   not complete its handshake reaches no handler and gets no answer. The
   scenario keeps the pending handshakes below MaxClients (what happens to a
   peer that finds no place is property C09's business): a case that does not
   is refused here. *)
open Model
open Conv
open Scn_tls

type step = { st_pace : tls_pace; st_chain : tls_cert list; st_ver : tls_version option; st_verifies : bool;
              st_req : n list }

let tlspend inp impl =
  match inp with
  | _ks :: pool :: maxc :: (_ :: _ as toks) ->
    let split c s = String.split_on_char c s in
    let ids = ref [] in
    let cert_of name =
      let id = (match List.assoc_opt name !ids with
          | Some i -> i
          | None -> let i = 10 + List.length !ids in ids := (name, i) :: !ids; i) in
      { tlc_id = n_of_int id; tlc_exts = [] } in
    let pool = List.map cert_of (split '+' pool) in
    let maxc = int_of_string maxc in
    let pace_of tok =
      if tok = "w" then PaceAtOnce
      else match split '-' tok with
        | [stall; e] when stall <> "" && (stall = "s" || stall = "f" || stall.[0] = 'h') ->
          (match e with "c" -> PaceLate | "x" -> PaceNever | _ -> failwith "tlspend: bad pace")
        | _ -> failwith "tlspend: bad pace" in
    let steps = List.map (fun tok ->
        match split ';' tok with
        | [pace; chain; ver; verifies; req] ->
          { st_pace = pace_of pace;
            st_chain = (if chain = "none" then [] else List.map cert_of (split '+' chain));
            st_ver = version_of_tok ver; st_verifies = (verifies = "1"); st_req = bytes_of_hex req }
        | _ -> failwith "tlspend: bad step token") toks in
    (* crypto/x509 under the configured pool: chain -> verifies *)
    let table = List.fold_left (fun t s ->
        match List.assoc_opt s.st_chain t with
        | Some v when v <> s.st_verifies -> failwith "tlspend: one pool, one chain, two verification results"
        | Some _ -> t
        | None -> (s.st_chain, s.st_verifies) :: t) [([], false)] steps in
    let oracle (pol : tls_policy) (peer : tls_peer) =
      if pol.tpo_pool <> Some pool then failwith "tlspend: a handshake under another pool than the configured one"
      else match List.assoc_opt peer.tpe_chain table with
        | Some verifies -> oracle_srv ~verifies pol peer
        | None -> failwith "tlspend: unknown chain" in
    let conf = { tsv_url = bytes_of_native "tcp+tls://127.0.0.1:0"; tsv_timeout = Z0; tsv_max_clients = n_of_int maxc;
                 tsv_cert = Some own_cert; tsv_cas = Some pool } in
    let psteps = List.map (fun s ->
        { tps_pace = s.st_pace;
          tps_attempt = { tat_peer = { tpe_speaks_tls = true; tpe_chain = s.st_chain;
                                       tpe_versions = (match s.st_ver with Some v -> [v] | None -> []) };
                          tat_state = 0; tat_stream = s.st_req } }) steps in
    (* the scenario: fewer pending handshakes than places *)
    let places = (if maxc = 0 then 10 else maxc) in
    if int_of_n (tls_places conf) <> places then failwith "tlspend: the model has other places than MaxClients";
    if int_of_n (tls_pending_count psteps) >= places then failwith "tlspend: no place left (outside this scenario)";
    let evss = tls_server_pending oracle (recording_handler (ref [])) conf Closed psteps in
    if List.length evss <> List.length steps then failwith "tlspend: the model lost a step";
    let m = String.concat "," (List.map2 (fun s evs ->
        let calls = List.length (List.filter (function EvCall _ -> true | _ -> false) evs) in
        let fc = nth_opt s.st_req 7 in
        let resp = List.exists (function EvResp f -> fc <> None && nth_opt f 7 = fc | _ -> false) evs in
        Printf.sprintf "%d/%d" calls (if resp then 1 else 0)) steps evss) in
    (* the property, from its text *)
    let want = String.concat "," (List.map (fun s ->
        if s.st_pace <> PaceNever && s.st_chain <> [] && s.st_verifies
           && (s.st_ver = Some TLS12 || s.st_ver = Some TLS13)
        then "1/1" else "0/0") steps) in
    (m, if impl = want then "1" else "0")
  | _ -> failwith "tlspend: bad input"

let () = Registry.register "tlspend" tlspend
