(* scenario of C19 for clients opened on a real serial device
   silenceframing  speed databits parity stopbits n margin_us
        -> "ok n=<n> mingap=<ns>" | "err:..." | "hang"
   The implementation reports the smallest silence it kept between the end of
   a reply and the start of its next request (measured from outside, on the
   device side of a pseudo terminal; the measurement can only over-estimate).
   P: silence_okb of Model/TimingLine.v (extracted) on that number, i.e.
   mingap >= t35(speed) whatever the data bits, parity and stop bits are
   (theorems c19b_any_framing, c19b_silence_okb, c19b_measurement_sound).
   Model output: the implementation's line when P holds, else the bound. *)
open Model
open Conv

let silenceframing inp impl =
  match inp with
  | [speed; data; par; stop; n; _margin] ->
    let z s = z_of_int (int_of_string s) in
    let cfg = { lc_speed = z speed; lc_data_bits = z data; lc_parity = z par; lc_stop_bits = z stop } in
    let need = int_of_z (open_t35 cfg) in
    let expect = Printf.sprintf "ok n=%s mingap>=%d" n need in
    let prefix = "mingap=" in
    (match String.split_on_char ' ' impl with
     | ["ok"; ns; g] when ns = "n=" ^ n && String.length g > String.length prefix
                          && String.sub g 0 (String.length prefix) = prefix ->
       (match int_of_string_opt (String.sub g (String.length prefix) (String.length g - String.length prefix)) with
        | Some gap when silence_okb cfg (z_of_int gap) -> (impl, "1")
        | _ -> (expect, "0"))
     | _ -> (expect, "0"))
  | _ -> failwith "silenceframing: bad input"

let () = Registry.register "silenceframing" silenceframing
