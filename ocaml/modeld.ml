(* modeld: line-oriented driver around the extracted Coq model.
   stdin : one case per line   scn <TAB> input tokens (space separated) <TAB> impl output
   stdout: one line per case   model output <TAB> P     (P = 1/0: property predicate
           evaluated on the implementation's output; "-" when the scenario has none) *)
open Model
open Conv

let endian_of s = if s = "1" then BigE else LittleE
let word_of s = if s = "1" then HighFirst else LowFirst

let opt_str f = function Some x -> f x | None -> "panic"

let handle scn (inp : string list) (impl : string) : string * string =
  let p_eq m = if m = impl then "1" else "0" in
  (* float variants share the integer model: floats are their bit patterns *)
  let scn = match scn with
    | "enc32f" -> "enc32" | "enc64f" -> "enc64"
    | "dec32sf" -> "dec32s" | "dec64sf" -> "dec64s" | s -> s in
  match scn, inp with
  (* ---- C17 codecs; P = implementation output equals the reference layout *)
  | "enc16", [e; v] ->
    let m = hex_of_bytes (u16_to_bytes (endian_of e) (n_of_hex v)) in
    let s = hex_of_bytes (spec_bytes (nat_of_int 1) (endian_of e) HighFirst (n_of_hex v)) in
    (m, if s = impl then "1" else "0")
  | "enc16s", [e; vs] ->
    (* the list encoder: concatenation of the scalar layouts; the implementation's
       output carries a "!..." marker when the caller's slice was modified or a
       second call on the same slice gave other bytes, which P rejects *)
    let l = list_of_csv n_of_hex vs in
    let m = hex_of_bytes (u16s_to_bytes (endian_of e) l) in
    let s = hex_of_bytes (List.concat_map (fun v -> spec_bytes (nat_of_int 1) (endian_of e) HighFirst v) l) in
    (m, if s = impl then "1" else "0")
  | "enc32", [e; w; v] ->
    let m = hex_of_bytes (u32_to_bytes (endian_of e) (word_of w) (n_of_hex v)) in
    let s = hex_of_bytes (spec_bytes (nat_of_int 2) (endian_of e) (word_of w) (n_of_hex v)) in
    (m, if s = impl then "1" else "0")
  | "enc64", [e; w; v] ->
    let m = hex_of_bytes (u64_to_bytes (endian_of e) (word_of w) (n_of_hex v)) in
    let s = hex_of_bytes (spec_bytes (nat_of_int 4) (endian_of e) (word_of w) (n_of_hex v)) in
    (m, if s = impl then "1" else "0")
  | "dec16", [e; b] ->
    let m = opt_str hex_of_n (bytes_to_u16 (endian_of e) (bytes_of_hex b)) in
    (* P: re-encoding the implementation's value with the reference layout gives the input *)
    let p = (try if hex_of_bytes (spec_bytes (nat_of_int 1) (endian_of e) HighFirst (n_of_hex impl)) = b then "1" else "0" with _ -> "0") in
    (m, p)
  | "dec16s", [e; b] ->
    let m = opt_str (csv_of_list hex_of_n) (bytes_to_u16s (endian_of e) (bytes_of_hex b)) in
    let p = if impl = "panic" then (if List.length (bytes_of_hex b) mod 2 <> 0 then "1" else "0") else (try
      let vs = list_of_csv n_of_hex impl in
      let back = List.concat_map (fun v -> spec_bytes (nat_of_int 1) (endian_of e) HighFirst v) vs in
      if hex_of_bytes back = b then "1" else "0" with _ -> "0") in
    (m, p)
  | "dec32s", [e; w; b] ->
    let m = opt_str (csv_of_list hex_of_n) (bytes_to_u32s (endian_of e) (word_of w) (bytes_of_hex b)) in
    let p = if impl = "panic" then (if List.length (bytes_of_hex b) mod 4 <> 0 then "1" else "0") else (try
      let vs = list_of_csv n_of_hex impl in
      let back = List.concat_map (fun v -> spec_bytes (nat_of_int 2) (endian_of e) (word_of w) v) vs in
      if hex_of_bytes back = b then "1" else "0" with _ -> "0") in
    (m, p)
  | "dec64s", [e; w; b] ->
    let m = opt_str (csv_of_list hex_of_n) (bytes_to_u64s (endian_of e) (word_of w) (bytes_of_hex b)) in
    let p = if impl = "panic" then (if List.length (bytes_of_hex b) mod 8 <> 0 then "1" else "0") else (try
      let vs = list_of_csv n_of_hex impl in
      let back = List.concat_map (fun v -> spec_bytes (nat_of_int 4) (endian_of e) (word_of w) v) vs in
      if hex_of_bytes back = b then "1" else "0" with _ -> "0") in
    (m, p)
  | "encb", [bits] ->
    let l = bools_of_str bits in
    let m = hex_of_bytes (encode_bools l) in
    (* P: the reference layout. The extracted spec_coil_bytes is quadratic in unary
       arithmetic, so it is used up to 64 coils; above that the same statement (bit
       (i mod 8) of byte (i / 8) is coil i, zero padding, ceil(n/8) bytes) is
       evaluated natively. *)
    let n = List.length l in
    if n <= 64 then (m, if hex_of_bytes (spec_coil_bytes l) = impl then "1" else "0")
    else begin
      let bs = Array.of_list (List.map int_of_n (bytes_of_hex impl)) in
      let la = Array.of_list l in
      let ok = ref (Array.length bs = (n + 7) / 8) in
      if !ok then
        for i = 0 to (8 * Array.length bs) - 1 do
          let bit = (bs.(i / 8) lsr (i mod 8)) land 1 = 1 in
          let want = i < n && la.(i) in
          if bit <> want then ok := false
        done;
      (m, if !ok then "1" else "0")
    end
  | "decb", [q; b] ->
    let m = opt_str str_of_bools (decode_bools (nat_of_int (int_of_string q)) (bytes_of_hex b)) in
    (* P: bit i of the result is bit (i mod 8) of byte (i / 8) *)
    let bs = Array.of_list (List.map int_of_n (bytes_of_hex b)) in
    let qi = int_of_string q in
    let p =
      if impl = "panic" then (if (qi + 7) / 8 > Array.length bs then "1" else "0")
      else begin
        let r = bools_of_str impl in
        if List.length r <> qi then "0"
        else if List.for_all (fun x -> x)
            (List.mapi (fun i v -> i / 8 < Array.length bs && v = ((bs.(i / 8) lsr (i mod 8)) land 1 = 1)) r)
        then "1" else "0"
      end in
    (m, p)
  (* ---- C06 checksum; P = implementation equals the bit-serial reference *)
  | "crc", [b] ->
    let l = bytes_of_hex b in
    let s = crc16 l in
    let m = hex_of_bytes (crc_value s) ^ " " ^ hex_of_n s in
    let r = crc_ref l in
    let sp = hex_of_bytes [N.modulo r (n_of_int 256); N.div r (n_of_int 256)] ^ " " ^ hex_of_n r in
    (m, if sp = impl then "1" else "0")
  | "crcchunks", [cs] ->
    let chunks = List.map bytes_of_hex (String.split_on_char ',' cs) in
    let s = List.fold_left crc_from crc_init chunks in
    let m = hex_of_bytes (crc_value s) in
    let r = crc_ref (List.concat chunks) in
    let sp = hex_of_bytes [N.modulo r (n_of_int 256); N.div r (n_of_int 256)] in
    (m, if sp = impl then "1" else "0")
  | "crceq", [b; lo; hi] ->
    let l = bytes_of_hex b in
    let m = if crc_is_equal (crc16 l) (n_of_hex lo) (n_of_hex hi) then "1" else "0" in
    let r = crc_ref l in
    let sp = if N.eqb (N.add (N.mul (n_of_hex hi) (n_of_int 256)) (n_of_hex lo)) r then "1" else "0" in
    (m, if sp = impl then "1" else "0")
  | _ -> ignore p_eq; Registry.dispatch scn inp impl

(* exhaustive comparison of the one-byte CRC transition against a binary dump
   (little-endian uint16 for state*256+byte, states lo..hi-1) *)
let crc_step_table file lo hi =
  let ic = open_in_bin file in
  let bad = ref 0 and first = ref "" in
  let bytes256 = Array.init 256 n_of_int in
  for s = lo to hi - 1 do
    let sn = n_of_int s in
    seek_in ic (s * 512);
    for b = 0 to 255 do
      let l = input_byte ic in
      let h = input_byte ic in
      let impl = l + (256 * h) in
      let m = int_of_n (crc_step sn bytes256.(b)) in
      let r = int_of_n (step_ref sn bytes256.(b)) in
      if m <> impl || r <> impl then begin
        incr bad;
        if !first = "" then first := Printf.sprintf "state=%d byte=%d impl=%d model=%d ref=%d" s b impl m r
      end
    done
  done;
  close_in ic;
  Printf.printf "crc_step_table lo=%d hi=%d bad=%d %s\n" lo hi !bad !first

let () =
  match Array.to_list Sys.argv with
  | [_; "crc_step_table"; file; lo; hi] -> crc_step_table file (int_of_string lo) (int_of_string hi)
  | _ ->
    (try
       while true do
         let line = input_line stdin in
         match String.split_on_char '\t' line with
         | [scn; inp; impl] ->
           let toks = if inp = "" then [] else String.split_on_char ' ' inp in
           let (m, p) = (try handle scn toks impl with e -> ("modeld-error:" ^ Printexc.to_string e, "0")) in
           print_string m; print_char '\t'; print_string p; print_char '\n'
         | _ -> print_string "modeld-error:bad-line\t0\n"
       done
     with End_of_file -> ())
