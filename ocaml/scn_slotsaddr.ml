(* scenario "slotsaddr": a trace of operations on a real server whose clients
   dial from FIXED source addresses and come back from an address while the
   server's session for the previous connection from it may still be alive
   (see harness/cmd/implrun/c09_addr.go), mapped to the labelled steps of
   Model/Slots.v. In that system a connection is an identity: connection i of
   the trace is conn i whatever address it was dialled from; the address is the
   label f of Model/SlotsAddr.v, which the transition system never looks at
   (Properties/C09c.v: enrolment next to a member with the same label takes a
   slot of its own, a removal gives back the slot of the removed connection
   only).
     C<i>@<a> = SlotsVisit.arrival i          T<i>@<a> = Arrive i; Take i   E = Enrol
     R<i>, H<i> = Req i (a handler call; H: the session stays in the handler)
     A<i>     = SlotsVisit.departure i Disconnect, unless the session is in a
                handler: then the server does not notice and there is no step
     U<i>     = for a client that aborted meanwhile: departure i Disconnect
     X<i>, Y<i> = End (i, Disconnect)          M = Remove
     B<i>     = SlotsVisit.departure i ProtocolError
   Every expected token - the length of the active list after each operation,
   resp / closed / held, the handler invocations - is read off the extracted
   model state.
   P: the implementation's tokens are the model's; the model never has more
   than MaxClients members; and, from the implementation's tokens alone, the set
   of connections that got a handler call and were not ended since never
   exceeds MaxClients, and at the end the served connections of every address
   are the members the model has at that label (SlotsAddr.at_label). *)
open Model
open Conv

let slotsaddr inp impl =
  match inp with
  | maxc :: ops ->
    let maxn = int_of_string maxc in
    let s = ref (step (init (nat_of_int maxn)) Start) in
    let n () = List.length (!s).clients in
    let labels = Hashtbl.create 16 in
    (* an ephemeral source port is an address of its own *)
    let f c = match Hashtbl.find_opt labels (int_of_nat c) with
      | Some a when a > 0 -> nat_of_int a
      | _ -> nat_of_int (1000 + int_of_nat c) in
    let held = ref [] and aborted = ref [] in
    let heldacc = ref (-1) and heldend = ref (-1) in
    let reqs = ref 0 in
    let bound_ok = ref true in
    let parse op =
      let body = String.sub op 1 (String.length op - 1) in
      match String.split_on_char '@' body with
      | [i; a] -> (int_of_string i, int_of_string a)
      | [""] -> (0, 0)
      | [i] -> (int_of_string i, 0)
      | _ -> failwith "slotsaddr: bad op" in
    (* the implementation's side of P *)
    let itoks = Array.of_list (String.split_on_char ' ' impl) in
    let iserved = Hashtbl.create 16 in
    let starts pre str = String.length str >= String.length pre && String.sub str 0 (String.length pre) = pre in
    let iobs k kind i =
      (if k < Array.length itoks then
         let t = itoks.(k) in
         match kind with
         | 'R' | 'H' -> if starts "resp" t || starts "held" t then Hashtbl.replace iserved i () else Hashtbl.remove iserved i
         | 'U' -> if starts "resp" t then Hashtbl.replace iserved i () else Hashtbl.remove iserved i
         | 'A' | 'X' | 'B' | 'Y' -> Hashtbl.remove iserved i
         | _ -> ());
      if Hashtbl.length iserved > maxn then bound_ok := false in
    let out = List.mapi (fun k op ->
        let kind = op.[0] in
        let (i, a) = parse op in
        let c = nat_of_int i in
        let tok = match kind with
          | 'C' -> Hashtbl.replace labels i a; s := run !s (arrival c); string_of_int (n ())
          | 'T' -> Hashtbl.replace labels i a; s := run !s [Arrive c; Take c]; heldacc := i; "taken"
          | 'E' -> s := step !s (Enrol (nat_of_int !heldacc)); heldacc := -1; string_of_int (n ())
          | 'R' ->
            if enabled !s (Req c) && not (List.mem i !aborted) then (s := step !s (Req c); incr reqs; "resp+1")
            else "closed+0"
          | 'H' ->
            if enabled !s (Req c) && not (List.mem i !aborted) && not (List.mem i !held)
            then (s := step !s (Req c); incr reqs; held := i :: !held; "held+1")
            else "closed+0"
          | 'U' | 'Y' ->
            if not (List.mem i !held) then "notheld"
            else begin
              held := List.filter (fun j -> j <> i) !held;
              if not (List.mem i !aborted) then Printf.sprintf "resp:%d" (n ())
              else if kind = 'Y' then (s := step !s (End (c, Disconnect)); heldend := i; string_of_int (n ()))
              else (s := run !s (departure c Disconnect); Printf.sprintf "gone:%d" (n ()))
            end
          | 'A' ->
            if not (List.mem i !aborted) then begin
              aborted := i :: !aborted;
              (* a session inside a handler does not notice that its client is gone *)
              if not (List.mem i !held) then s := run !s (departure c Disconnect)
            end;
            string_of_int (n ())
          | 'X' ->
            if not (List.mem i !aborted) then begin
              aborted := i :: !aborted;
              if not (List.mem i !held) && (!s).stat c = Serving then (s := step !s (End (c, Disconnect)); heldend := i)
            end;
            string_of_int (n ())
          | 'M' ->
            if !heldend >= 0 then s := step !s (Remove (nat_of_int !heldend));
            heldend := -1;
            string_of_int (n ())
          | 'B' ->
            if not (List.mem i !aborted) then (aborted := i :: !aborted; s := run !s (departure c ProtocolError));
            string_of_int (n ())
          | _ -> "?" in
        if int_of_nat (serving_count !s) > maxn || n () > maxn then bound_ok := false;
        iobs k kind i;
        tok) ops in
    let m = String.concat " " (out @ [Printf.sprintf "calls=%d" !reqs]) in
    (* by address: what the implementation serves at the end is what the model has at that label *)
    let by_label_ok =
      Hashtbl.fold (fun _ a acc ->
          acc && (a = 0 ||
                  let la = nat_of_int a in
                  let model = List.filter (fun c -> (!s).stat c = Serving && not (List.mem (int_of_nat c) !aborted))
                      (at_label f la !s) in
                  let impl_n = Hashtbl.fold (fun i () k -> if Hashtbl.find_opt labels i = Some a then k + 1 else k) iserved 0 in
                  impl_n <= List.length model)) labels true in
    (m, if m = impl && !bound_ok && by_label_ok then "1" else "0")
  | _ -> failwith "slotsaddr: bad input"

let () = Registry.register "slotsaddr" slotsaddr
