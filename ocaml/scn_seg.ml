(* C12 scenarios over scripted connections:
   segdiff  the harness ran one stream under many segmentations and compared
            the implementation's outputs among themselves: "same" is the only
            output the property allows;
   ccc/srvc the client call / server session evaluated by the CHUNKED model
            (Model/Chunks.v: one Read per chunk, io.ReadFull loop) on the very
            chunk list, cross-checked against the flat model on the
            concatenation (their equality is theorem c12_client_call_chunks /
            c12_server_run_chunks). *)
open Model
open Conv
open Lib_wire

let segdiff _inp impl = ("same", if impl = "same" then "1" else "0")

let ccc inp impl =
  match inp with
  | fr :: unit :: e :: w :: send :: chunks :: optoks ->
    let cfg = { c_unit = n_of_hex unit; c_endian = endian_of e; c_word = word_of w } in
    let framing = if fr = "m" then FMbap else FRtu in
    let cs = chunks_of chunks in
    let stream = List.concat cs in
    let o = op_of_tokens optoks in
    let r = client_call_c framing cfg N0 o (send_of send) cs in
    let f = client_call framing cfg N0 o (send_of send) stream in
    let left = List.length (List.concat r.gcr_rest) in
    let consumed = List.length stream - left in
    let rs = result_str r.gcr_res in
    let ws = csv_of_list hex_of_bytes r.gcr_writes in
    let agree = r.gcr_res = f.cr_res && r.gcr_writes = f.cr_writes && List.concat r.gcr_rest = f.cr_rest in
    let m = Printf.sprintf "%s %s %d" rs ws consumed in
    let p = (match String.split_on_char ' ' impl with
        | [ir; iw; _] -> if agree && project ir = project rs && iw = ws then "1" else "0"
        | _ -> "0") in
    ((if agree then m else m ^ " chunked-and-flat-model-differ"), p)
  | _ -> failwith "ccc: bad input"

let srvc inp impl =
  match inp with
  | [send; chunks; script] ->
    let cs = chunks_of chunks in
    let sc = if script = "-" then [||] else Array.of_list (String.split_on_char ',' script) in
    let evs = server_run_c (sh_handler (script_of_tokens sc)) O (send_of send) cs in
    let flat = server_run (sh_handler (script_of_tokens sc)) O (send_of send) (List.concat cs) in
    let m = String.concat ";" (List.map event_str evs) in
    if evs <> flat then (m ^ " chunked-and-flat-model-differ", "0")
    else (m, if m = impl then "1" else "0")
  | _ -> failwith "srvc: bad input"

(* seglate: unit cut stream op... ; wherever the stream was cut, the second call
   sees the late reply to the first one followed by its own reply *)
let is_ok r = String.length r >= 3 && String.sub r 0 3 = "ok:"

let seglate inp impl =
  match inp with
  | unit :: _cut :: stream :: optoks ->
    let cfg = { c_unit = n_of_hex unit; c_endian = BigE; c_word = HighFirst } in
    let o = op_of_tokens optoks in
    let r1 = client_call FMbap cfg N0 o Stall [] in
    let r2 = client_call FMbap cfg r1.cr_txn o Stall (bytes_of_hex stream) in
    let m = Printf.sprintf "%s %s left=%d" (result_str r1.cr_res) (result_str r2.cr_res) (List.length r2.cr_rest) in
    (m, if m = impl && is_ok (result_str r2.cr_res) then "1" else "0")
  | _ -> failwith "seglate: bad input"

let () =
  Registry.register "seglate" seglate;
  Registry.register "segdiff" segdiff;
  Registry.register "ccc" ccc;
  Registry.register "srvc" srvc
