(* scenario of C07 (every client call completes within the timeout)
   timed  scheme speed timeout_ms behaviour close chunks op...
            -> "<result> <verdict> <bound_ns>"
   The behaviour has been translated by the generator into a timed stream:
   chunk "<t_us>:<hex>" arrives t_us microseconds after the request (floods:
   "cyc:<n>:<period_us>:<hex>/<hex>/..." = chunk i < n at i*period), close
   "c<t_us>" (or "-") is the peer's orderly close. The model side runs the
   extracted tm_client_call (Model/Timed.v) on that stream with t0 = 0, a
   fresh transport (lastActivity far in the past, transaction counter 0), the
   character time / inter-frame delay of Model/Timing.v and the poll
   granularity of the link (10 ms behind the serial wrapper, else 0).
   Model output: the predicted outcome, "intime", and the bound of
   Spec/TimedSpec.v (tm_mbap_bound / tm_rtu_bound).
   P: the implementation's outcome, duration verdict and bound are the model's. *)
open Model
open Conv
open Lib_wire

let contains s sub =
  let n = String.length s and m = String.length sub in
  let rec go i = i + m <= n && (String.sub s i m = sub || go (i + 1)) in
  go 0

let timed inp impl =
  match inp with
  | scheme :: speed :: tmo :: _beh :: close :: chunks :: optoks ->
    let rtu = contains scheme "rtu" in
    let speed = int_of_string speed and tmo_ms = int_of_string tmo in
    let gran = if scheme = "l:rtu" then 10_000_000 else 0 in
    let k = { tm_timeout = z_of_int (tmo_ms * 1_000_000);
              tm_t1 = (if rtu then char_time (z_of_int speed) else Z0);
              tm_t35 = (if rtu then t35 (z_of_int speed) else Z0);
              tm_gran = z_of_int gran } in
    let at t_us bytes = let tz = z_of_int (t_us * 1000) in List.map (fun b -> (tz, b)) bytes in
    let stream =
      if chunks = "-" then []
      else List.concat_map (fun tok ->
          match String.split_on_char ':' tok with
          | [t; h] -> at (int_of_string t) (bytes_of_hex h)
          | ["cyc"; n; period; hs] ->
            (* chunk i (i < n) at i*period, contents cycling through the given frames *)
            let frames = Array.of_list (List.map bytes_of_hex (String.split_on_char '/' hs)) in
            let period = int_of_string period in
            List.concat (List.init (int_of_string n)
                           (fun i -> at (i * period) frames.(i mod Array.length frames)))
          | _ -> failwith "timed: bad chunk") (String.split_on_char ',' chunks) in
    let cl =
      if close = "-" then None
      else Some (z_of_int (int_of_string (String.sub close 1 (String.length close - 1)) * 1000)) in
    let cfg = { c_unit = n_of_int 1; c_endian = BigE; c_word = HighFirst } in
    let o = op_of_tokens optoks in
    let la = z_of_int (-1_000_000_000_000_000) in
    let r = tm_client_call (if rtu then FRtu else FMbap) k la cfg N0 o Z0 cl stream in
    let bound = if rtu then tm_rtu_bound k Z0 (tm_req_len cfg o) else tm_mbap_bound k Z0 in
    let finish = int_of_z r.tmc_finish and b = int_of_z bound in
    let verdict = if finish <= b then "intime" else "model-late" in
    let m3 = Printf.sprintf "%s %s %d" (result_str r.tmc_res) verdict b in
    (* the implementation also reports its measured duration (us): it must not
       exceed the finish time the timed model predicts for this very peer
       behaviour by more than the scheduling slack (150 ms) *)
    let slack_us = 150_000 in
    let (impl3, dur_ok, dur_tok) =
      match String.split_on_char ' ' impl with
      | [a; b'; c; d] when String.length d > 4 && String.sub d 0 4 = "dur=" ->
        let us = int_of_string (String.sub d 4 (String.length d - 4)) in
        (a ^ " " ^ b' ^ " " ^ c, us <= (finish / 1000) + slack_us, d)
      | _ -> (impl, true, "") in
    if dur_tok = "" then (m3, if m3 = impl && finish <= b then "1" else "0")
    else if dur_ok then (m3 ^ " " ^ dur_tok, if m3 = impl3 && finish <= b then "1" else "0")
    else (Printf.sprintf "%s dur<=%dus" m3 ((finish / 1000) + slack_us), "0")
  | _ -> failwith "timed: bad input"

let () = Registry.register "timed" timed
