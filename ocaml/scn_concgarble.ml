(* scenario "concgarble" (C08): goroutines sharing one client over an
   RTU-framed link whose device sometimes garbles a reply (wrong CRC, unknown
   function code, line noise behind the frame, a frame cut short, silence) and
   answers the exchange after a garbled one late. See
   harness/cmd/implrun/c08_zgarble.go.

   input : link unit e w speed timeout_ms late_ms stagger_ms seed
           { ; thread call fault delay_ms answer op... | ; thread setunit | ; thread setenc }*
   impl  : "<verdict> <wire events> <per step, joined by ;>"
           per step "<result>@<frames the device received for the call>" | ok:u

   Expected, whatever the order in which the goroutines got the client: no
   anomaly; the wire events pass the extracted check cw_atomic
   (Model/ConcWire.v, theorems C08w); every caller is handed what the answer to
   ITS request decides and its request is the one whole frame of the model:
   cg_expected of the extracted Model/ConcGarble.v (one client_call per call on
   a quiet line facing its own answer). By the theorems of Properties/C08g.v
   that is what the exchanges return in every order, provided every answer is
   settled (cg_all_settled, checked here on the input: anything else is a
   bad-input). The wire events of an accepted run depend on the schedule: they
   are echoed into the model output. P = verdict ok, cw_atomic, and the
   per-step observables are the expected ones. *)
open Model
open Conv
open Lib_wire

let ev_of tok =
  let n = String.length tok in
  if n < 2 then None
  else match int_of_string_opt (String.sub tok 1 (n - 1)) with
    | None -> None
    | Some i when i < 0 || i > 100000 -> None
    | Some i ->
      (match tok.[0] with
       | 'q' -> Some (WReq (nat_of_int i))
       | 'e' | 'x' -> Some (WEnd (nat_of_int i))
       | _ -> None)

type step = Call of op * n list | Setting

let concgarble inp impl =
  match inp with
  | _link :: unit :: e :: w :: _speed :: _tmo :: _late :: _stagger :: _seed :: rest ->
    let cfg = { c_unit = n_of_hex unit; c_endian = endian_of e; c_word = word_of w } in
    let steps = ref [] and step = ref [] and bad = ref false in
    let flush () =
      (match List.rev !step with
       | _t :: "call" :: _fault :: _delay :: answer :: (_ :: _ as optoks) ->
         (try steps := Call (op_of_tokens optoks, bytes_of_hex answer) :: !steps
          with _ -> bad := true)
       | [_t; ("setunit" | "setenc")] -> steps := Setting :: !steps
       | [] -> ()
       | _ -> bad := true);
      step := [] in
    List.iter (fun t -> if t = ";" then flush () else step := t :: !step) rest;
    flush ();
    let steps = List.rev !steps in
    let calls = List.filter_map (function Call (o, a) -> Some (o, a) | Setting -> None) steps in
    if !bad || steps = [] || not (cg_all_settled cfg calls) then ("bad-input", "0")
    else begin
      let results = cg_expected cfg calls in
      let rec render st rs =
        match st, rs with
        | [], _ -> []
        | Setting :: t, _ -> "ok:u" :: render t rs
        | Call _ :: t, r :: rt ->
          (result_str r.cr_res ^ "@" ^ csv_of_list hex_of_bytes r.cr_writes) :: render t rt
        | Call _ :: _, [] -> failwith "concgarble: model returned too few results" in
      let expected = String.concat ";" (render steps results) in
      match String.split_on_char ' ' impl with
      | [verdict; tr; got] ->
        let toks = if tr = "-" then [] else String.split_on_char ',' tr in
        let evs = List.map ev_of toks in
        if List.mem None evs then ("ok <wire events> " ^ expected, "0")
        else begin
          let evs = List.filter_map (fun x -> x) evs in
          if cw_atomic evs then
            ("ok " ^ tr ^ " " ^ expected, if verdict = "ok" && got = expected then "1" else "0")
          else ("ok wire-not-atomic " ^ expected, "0")
        end
      | _ -> ("ok <wire events> " ^ expected, "0")
    end
  | _ -> ("bad-input", "0")

let () = Registry.register "concgarble" concgarble
