(* scenarios "txu", "txuids", "txur" (C05 with unit-id changes between the
   requests of one connection), run through the extracted Model/TxnUnits.v
   (histu_step: a step is a call of Model/TxnHistory.v under the unit id
   currently set, or SetUnitId, which changes the unit id of the following
   requests and nothing else - the transaction counter and the unread bytes
   belong to the connection; Properties/C05u.v).

     txu   fr unit e w { ; call end chunks op... | ; setunit u }*
             -> per step, joined by ";":  call "result writes consumed" | setunit "ok"
     txur  scheme tmo unit e w { ; call <dur> op... | ; rel <list> | ; setunit u }*
             -> per step, joined by ";":  call "<result> <request frame>" | "rel" | "ok"

   The generators tag every scripted reply: a protocol-id-0 frame built as the
   reply to request number i - i counts ALL requests of the connection, to
   whatever unit - carries transaction id (i + 1) mod 2^16 and a register value
   v = i (mod 2^16). *)
open Model
open Conv
open Lib_wire

let split_steps (toks : string list) : string list list =
  let steps = ref [] and cur = ref [] in
  let flush () = if !cur <> [] then (steps := List.rev !cur :: !steps; cur := []) in
  List.iter (fun t -> if t = ";" then flush () else cur := t :: !cur) toks;
  flush ();
  List.rev !steps

let ints_of s = if s = "-" || s = "" then [] else List.map int_of_string (String.split_on_char ',' s)

(* the value a call returned, if it returned a number *)
let value_of ir =
  if String.length ir > 5 && String.sub ir 0 5 = "ok:n:" then
    Some (int_of_string_opt ("0x" ^ String.sub ir 5 (String.length ir - 5)))
  else None

(* transaction id and unit id of a transmitted MBAP frame (hex text) *)
let id_unit_of iw =
  if String.length iw < 14 then None
  else
    match int_of_string_opt ("0x" ^ String.sub iw 0 4), int_of_string_opt ("0x" ^ String.sub iw 12 2) with
    | Some t, Some u -> Some (t, u)
    | _ -> None

let txu inp impl =
  match inp with
  | fr :: unit :: e :: w :: rest ->
    let framing = if fr = "m" then FMbap else FRtu in
    let cfg = { c_unit = n_of_hex unit; c_endian = endian_of e; c_word = word_of w } in
    let xs = List.map (function
        | "call" :: send :: chunks :: optoks ->
          UCall { ths_op = op_of_tokens optoks; ths_bytes = List.concat (chunks_of chunks); ths_end = send_of send }
        | ["setunit"; u] -> USetUnit (n_of_hex u)
        | _ -> failwith "txu: bad step") (split_steps rest) in
    let rs = histu_run framing (cfg, th_init) xs in
    (* bytes consumed by a call = unread before + delivered - unread after *)
    let left = ref 0 in
    let outs = List.map2 (fun x r ->
        match x, r with
        | UCall c, Some r ->
          let avail = !left + List.length c.ths_bytes in
          let after = List.length r.cr_rest in
          left := after;
          `Call (result_str r.cr_res, csv_of_list hex_of_bytes r.cr_writes, avail - after)
        | USetUnit u, None -> `Set (int_of_n u)
        | _ -> failwith "txu: model step/result mismatch") xs rs in
    let m = String.concat ";" (List.map (function
        | `Call (rs, ws, c) -> Printf.sprintf "%s %s %d" rs ws c
        | `Set _ -> "ok") outs) in
    (* P, evaluated on what the implementation did:
       (a) request number j (0-based, counting the requests transmitted on the
           connection, to whatever unit) went out with transaction id
           (j + 1) mod 2^16 and is addressed to the unit of the last SetUnitId;
       (b) a call that returned a value returned one tagged with its own number
           modulo 2^16 - no misattribution;
       (c) per call, the projected outcome and the transmitted frames are the model's *)
    let isteps = if impl = "" then [] else String.split_on_char ';' impl in
    let ok = ref (List.length isteps = List.length outs) in
    let j = ref 0 and cur = ref (int_of_n cfg.c_unit) in
    if !ok then
      List.iter2 (fun s o ->
          match o, String.split_on_char ' ' s with
          | `Call (mrs, mws, _), [ir; iw; _] ->
            if project ir <> project mrs || iw <> mws then ok := false;
            if iw <> "-" then begin
              (match id_unit_of iw with
               | Some (t, u) -> if t <> (!j + 1) land 0xffff || (fr = "m" && u <> !cur) then ok := false
               | None -> ok := false);
              (match value_of ir with
               | Some (Some v) -> if v land 0xffff <> !j land 0xffff then ok := false
               | Some None -> ok := false
               | None -> ());
              incr j
            end
          | `Set u, ["ok"] -> cur := u
          | _ -> ok := false) isteps outs;
    (m, if !ok then "1" else "0")
  | _ -> failwith "txu: bad input"

let () = Registry.register "txu" txu

(* txuids: request i of a fresh client (0-based) carries id (i + 1) mod 2^16
   and goes to units[i mod k]; the last 8 of n as "id/unit" *)
let txuids inp impl =
  match inp with
  | [n; units] ->
    let n = int_of_string n in
    let us = Array.of_list (String.split_on_char ',' units) in
    let k = Array.length us in
    let ids = List.init (min 8 n) (fun q ->
        let i = n - (min 8 n) + q in
        hex_of_n (u16 (n_of_int (i + 1))) ^ "/" ^ hex_of_n (n_of_hex us.(i mod k))) in
    let m = String.concat "," ids in
    (m, if m = impl then "1" else "0")
  | _ -> failwith "txuids: bad input"

let () = Registry.register "txuids" txuids

(* ---- txur: real transports, event-driven *)

(* register image of tag v (the layout of the harness' tagData) *)
let tag_data v regs e w =
  let word x = if e = "1" then [x lsr 8 land 0xff; x land 0xff] else [x land 0xff; x lsr 8 land 0xff] in
  if regs = 1 then word (v land 0xffff)
  else
    let hi = word ((v lsr 16) land 0xffff) and lo = word (v land 0xffff) in
    if w = "1" then hi @ lo else lo @ hi

(* the addressed unit's reply to request number h, whose bytes were req: same
   transaction id, unit id and function code, data naming h *)
let reply_to h (req : int list) e w : int list option =
  if List.length req < 12 then None
  else
    let b i = List.nth req i in
    let regs = (b 10 lsl 8) lor b 11 in
    if regs <> 1 && regs <> 2 then None
    else
      let data = tag_data h regs e w in
      let n = List.length data in
      Some ([b 0; b 1; 0; 0; 0; n + 3; b 6; b 7; n] @ data)

let txur inp impl =
  match inp with
  | _scheme :: _tmo :: unit :: e :: w :: rest ->
    let cfg = { c_unit = n_of_hex unit; c_endian = endian_of e; c_word = word_of w } in
    let steps = split_steps rest in
    let st = ref (cfg, th_init) in
    (* the requests in the order the gateway receives them: the model's frames
       (what is transmitted does not depend on the peer: c05u_request_id) *)
    let reqs = ref [||] in
    let frame h =
      if h < 0 || h >= Array.length !reqs then []
      else match reply_to h (!reqs).(h) e w with
        | Some f -> List.map n_of_int f
        | None -> [] in
    (* sent by the gateway while no call was outstanding: waits in the socket *)
    let waiting = ref [] in
    let outs = List.map (function
        | "call" :: dur :: optoks ->
          let op = op_of_tokens optoks in
          let (_, dry) = histu_step FMbap !st (UCall { ths_op = op; ths_bytes = []; ths_end = Stall }) in
          (match dry with
           | Some r ->
             (match r.cr_writes with
              | f :: _ -> reqs := Array.append !reqs [| List.map int_of_n f |]
              | [] -> ())
           | None -> ());
          let bytes = !waiting @ List.concat (List.map frame (ints_of dur)) in
          waiting := [];
          let (st', r) = histu_step FMbap !st (UCall { ths_op = op; ths_bytes = bytes; ths_end = Stall }) in
          st := st';
          (match r with
           | Some r -> `Call (result_str r.cr_res, csv_of_list hex_of_bytes r.cr_writes)
           | None -> failwith "txur: call without result")
        | ["rel"; l] ->
          waiting := !waiting @ List.concat (List.map frame (ints_of l));
          `Rel
        | ["setunit"; u] ->
          let (st', _) = histu_step FMbap !st (USetUnit (n_of_hex u)) in
          st := st';
          `Set (int_of_n (n_of_hex u))
        | _ -> failwith "txur: bad step") steps in
    let m = String.concat ";" (List.map (function
        | `Call (r, ws) -> r ^ " " ^ ws
        | `Rel -> "rel"
        | `Set _ -> "ok") outs) in
    (* P: (a) request number g (in order of arrival at the gateway) carries id
       (g + 1) mod 2^16 and the unit of the last SetUnitId; (b) a returned value
       names the call's own request; (c) outcome and request frame are the model's *)
    let isteps = if impl = "" then [] else String.split_on_char ';' impl in
    let ok = ref (List.length isteps = List.length outs) in
    let g = ref 0 and cur = ref (int_of_n cfg.c_unit) in
    if !ok then
      List.iter2 (fun s o ->
          match o, String.split_on_char ' ' s with
          | `Call (mr, mw), [ir; iw] ->
            if project ir <> project mr || iw <> mw then ok := false;
            (match value_of ir with
             | Some (Some v) -> if v <> !g then ok := false
             | Some None -> ok := false
             | None -> ());
            if iw <> "-" then begin
              (match id_unit_of iw with
               | Some (t, u) -> if t <> (!g + 1) land 0xffff || u <> !cur then ok := false
               | None -> ok := false);
              incr g
            end
          | `Rel, ["rel"] -> ()
          | `Set u, ["ok"] -> cur := u
          | _ -> ok := false) isteps outs;
    (m, if !ok then "1" else "0")
  | _ -> failwith "txur: bad input"

let () = Registry.register "txur" txur
