(* scenario of C07 (every client call completes within the timeout; a valid
   reply that arrives before the timeout is never turned into a timeout): a
   LONG-LIVED connection to a peer that is alive.
   steady  scheme speed timeout_ms ncalls maxbad events reply op...
             -> "<runs> n=<calls> ids=<ids> bound=<ns> slow=<i>:<us>,..."
   ncalls calls of the same operation in a row on one connection that is
   never re-opened (ncalls may exceed 65536: the 16-bit transaction counter of
   the MBAP transports goes round); the peer reads every request and answers
   it at once with the valid reply "<fc>:<payload>" carrying the transaction
   id of the request, except at the request indices listed in `events`
   ("<i>:s" silent, "<i>:d<pct>" reply pct % of the timeout late, "<i>:f<off>"
   a well-formed frame with the id of the request + off first). The session
   is abandoned after the maxbad-th call that did not return values.
   The model side builds the session with the extracted tm_steady_calls
   (Model/TimedSteady.v) and runs the extracted tm_session_w
   (Model/TimedWrite.v) from t = 0 on a fresh transport (lastActivity far in
   the past, transaction counter 0); by Properties/C07c.v
   (c07c_steady_session_mbap) every call but the silent ones yields the
   values of the reply, for every length of the session.
   Model output: the run-length encoded "<outcome>/intime" sequence (intime:
   the predicted return is within tm_call_bound of the start of the call),
   the number of calls, the ids of the requests (tm_steady_ids: first id and
   how many go up by one mod 2^16), the bound.
   P: runs, n, ids and bound are the model's, and no call the implementation
   lists as slow (longer than 200 ms) lasted longer than the model predicts
   for that call plus the scheduling slack (400 ms). *)
open Model
open Conv
open Lib_wire

let slack_us = 400_000

let contains s sub =
  let n = String.length s and m = String.length sub in
  let rec go i = i + m <= n && (String.sub s i m = sub || go (i + 1)) in
  go 0

let steady inp impl =
  match inp with
  | scheme :: speed :: tmo :: ncalls :: maxbad :: events :: reply :: optoks ->
    let rtu = contains scheme "rtu" in
    let speed = int_of_string speed and tmo_ms = int_of_string tmo in
    let ncalls = int_of_string ncalls and maxbad = int_of_string maxbad in
    let k = { tm_timeout = z_of_int (tmo_ms * 1_000_000);
              tm_t1 = (if rtu then char_time (z_of_int speed) else Z0);
              tm_t35 = (if rtu then t35 (z_of_int speed) else Z0);
              tm_gran = Z0 } in
    let fr = if rtu then FRtu else FMbap in
    let cfg = { c_unit = n_of_int 1; c_endian = BigE; c_word = HighFirst } in
    let o = op_of_tokens optoks in
    let res = match String.split_on_char ':' reply with
      | [fc; pl] -> { p_unit = n_of_int 1; p_fc = n_of_hex fc; p_payload = bytes_of_hex pl }
      | _ -> failwith "steady: bad reply" in
    let evs = Hashtbl.create 16 in
    if events <> "-" then
      List.iter (fun tok ->
          match String.split_on_char ':' tok with
          | [i; w] when String.length w >= 1 ->
            let arg = String.sub w 1 (String.length w - 1) in
            let a = match w.[0] with
              | 's' -> PaSilent
              | 'd' -> PaReply (z_of_int (int_of_string arg * tmo_ms * 10_000))
              | 'f' -> if rtu then PaReply Z0 else PaForeign (n_of_hex arg)
              | _ -> failwith "steady: bad event" in
            Hashtbl.replace evs (int_of_string i) a
          | _ -> failwith "steady: bad event") (String.split_on_char ',' events);
    let items = List.init ncalls (fun i ->
        ((o, res), (match Hashtbl.find_opt evs i with Some a -> a | None -> PaReply Z0))) in
    let calls = tm_steady_calls fr cfg N0 items in
    let la = z_of_int (-1_000_000_000_000_000) in
    let steps = tm_session_w fr k cfg la N0 Z0 Z0 [] calls in
    let bound = int_of_z (tm_call_bound fr k cfg o Z0) in
    (* the session as far as the harness drives it: up to the maxbad-th call without values *)
    let rec upto bad acc = function
      | [] -> List.rev acc
      | st :: tl ->
        let bad' = (match st.tws_res with Ok _ -> bad | _ -> bad + 1) in
        if bad' >= maxbad then List.rev (st :: acc) else upto bad' (st :: acc) tl in
    let made = upto 0 [] steps in
    let n = List.length made in
    let pred = Array.of_list (List.map (fun st -> int_of_z st.tws_finish - int_of_z st.tws_start) made) in
    let model_ok = Array.for_all (fun d -> d <= bound) pred in
    (* run-length encoding *)
    let buf = Buffer.create 256 in
    let cur = ref "" and cnt = ref 0 in
    let flush () =
      if !cnt > 0 then begin
        if Buffer.length buf > 0 then Buffer.add_char buf ';';
        Buffer.add_string buf (Printf.sprintf "%s*%d" !cur !cnt)
      end in
    List.iteri (fun i st ->
        let s = result_str st.tws_res ^ "/" ^ (if pred.(i) <= bound then "intime" else "model-late") in
        if s <> !cur then begin flush (); cur := s; cnt := 0 end;
        incr cnt) made;
    flush ();
    let runs = Buffer.contents buf in
    (* the ids of the n requests *)
    let ids =
      if rtu then "-"
      else begin
        let rec take i l = if i = 0 then [] else match l with [] -> [] | x :: tl -> x :: take (i - 1) tl in
        match List.map int_of_n (take n (tm_steady_ids cfg N0 items)) with
        | [] -> "none"
        | first :: tl ->
          let rec dev i prev = function
            | [] -> None
            | x :: tl' -> if x = (prev + 1) land 0xffff then dev (i + 1) x tl' else Some (i, x) in
          (match dev 1 first tl with
           | None -> Printf.sprintf "%04x+%d" first n
           | Some (i, x) -> Printf.sprintf "%04x+%d!%04x" first i x)
      end in
    let m4 = Printf.sprintf "%s n=%d ids=%s bound=%d" runs n ids bound in
    (match String.split_on_char ' ' impl with
     | [a; b; c; d; e] when String.length e > 5 && String.sub e 0 5 = "slow=" ->
       let impl4 = String.concat " " [a; b; c; d] in
       let lst = String.sub e 5 (String.length e - 5) in
       let limit i = (pred.(i) / 1000) + slack_us in
       let entry_ok tok =
         match String.split_on_char ':' tok with
         | [i; us] ->
           (match int_of_string_opt i, int_of_string_opt us with
            | Some i, Some us -> i >= 0 && i < n && us <= limit i
            | _ -> false)
         | _ -> false (* "more": more slow calls than a session has misbehaviours *) in
       let bad = if lst = "-" then [] else List.filter (fun t -> not (entry_ok t)) (String.split_on_char ',' lst) in
       if bad = [] then (m4 ^ " " ^ e, if m4 = impl4 && model_ok then "1" else "0")
       else
         let show tok = match String.split_on_char ':' tok with
           | [i; _] -> (match int_of_string_opt i with
               | Some i when i >= 0 && i < n -> Printf.sprintf "%d:<=%d" i (limit i)
               | _ -> tok ^ ":?")
           | _ -> tok ^ ":?" in
         (m4 ^ " slow=" ^ String.concat "," (List.map show bad), "0")
     | _ -> (m4, "0"))
  | _ -> failwith "steady: bad input"

let () = Registry.register "steady" steady
