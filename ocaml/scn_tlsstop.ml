(* scenario "tlsstop" (C10): lifecycle traces on a real tcp+tls server with
   peers in every phase of becoming a session when Stop runs (see
   harness/cmd/implrun/c10_tlsstop.go). Every expected token is read off the
   extracted transition system of Model/TlsLife.v (Slots.v + the phase each
   peer has reached + the handler counter); theorems in Properties/C10d.v.
     S   Start                          "ok:<snap>"   (the model never produces "err:")
     P   Stop, then for every connection the harness holds (except a taken
         one) whether the peer sees it closed: "<snap>:<id>c,..."; the snapshot
         is taken after the sessions closed by Stop have wound down
     N   Arrive, Take, Enrol            "refused" | "<snap>:s" | "<snap>:c"
     T   Arrive, Take                   "taken" | "refused"
     E   Enrol of the taken connection  "<snap>:s" | "<snap>:c"
     H   THello                         "hello"
     L   TShake                         "ok" iff tl_shake_ok
     M   TPart                          "part" iff tl_req_ok
     R   Req                            "resp+1" iff tl_req_ok, else "closed+0"
     D   End Disconnect, Remove         "<snap>"
   <snap> = started/len(active list)/a<accept goroutines>/h<session goroutines> *)
open Model
open Conv

let acc_held = ref false

(* accept goroutines whose listener was closed return at once, except one that
   is being held by the harness between Accept and the admission step *)
let settle (b : tl_state) : tl_state =
  let b = ref b in
  let keep = if !acc_held then 1 else 0 in
  while int_of_nat (!b).tl_srv.zombies > keep do b := tl_step !b (TSrv AcceptExit) done;
  !b

let snapshot (b : tl_state) =
  let s = b.tl_srv in
  Printf.sprintf "%d/%d/a%d/h%d" (if s.started then 1 else 0) (List.length s.clients)
    (int_of_nat (tl_acceptors b)) (int_of_nat (tl_sessions b))

let steps b ls = List.fold_left (fun b l -> tl_step b (TSrv l)) b ls

let tlsstop inp impl =
  match inp with
  | maxc :: ops ->
    let b = ref (tl_init (nat_of_int (int_of_string maxc))) in
    acc_held := false;
    let held = ref (-1) in
    (* connections the harness holds open (dialled, not disconnected) *)
    let opened = ref [] in
    let admitted c =
      if (!b).tl_srv.stat c = Serving then "s" else if tl_peer_closed !b c then "c" else "o" in
    let out = List.map (fun op ->
        let f = String.split_on_char ':' op in
        let hd = List.hd f in
        let k = hd.[0] in
        let i = if String.length hd > 1 then int_of_string (String.sub hd 1 (String.length hd - 1)) else 0 in
        let c = nat_of_int i in
        match k with
        | 'S' -> b := settle (tl_step !b (TSrv Start)); "ok:" ^ snapshot !b
        | 'P' ->
          b := tl_step !b (TSrv Stop);
          let flags = List.filter_map (fun j ->
              if j = !held then None
              else Some (Printf.sprintf "%d%s" j (if tl_peer_closed !b (nat_of_int j) then "c" else "o")))
              (List.sort compare !opened) in
          (* every session goroutine whose socket Stop closed winds down *)
          List.iter (fun c ->
              if (!b).tl_srv.stat c = Serving then b := steps !b [End (c, ClosedByStop); Remove c])
            (!b).tl_srv.clients;
          b := settle !b;
          snapshot !b ^ ":" ^ (if flags = [] then "-" else String.concat "," flags)
        | 'N' ->
          if not (!b).tl_srv.listening then "refused"
          else (b := steps !b [Arrive c; Take c; Enrol c]; opened := i :: !opened;
                snapshot !b ^ ":" ^ admitted c)
        | 'T' ->
          if not (!b).tl_srv.listening then "refused"
          else (b := steps !b [Arrive c; Take c]; opened := i :: !opened;
                held := i; acc_held := true; "taken")
        | 'E' ->
          if !held < 0 then snapshot !b ^ ":-"
          else begin
            let hc = nat_of_int !held in
            b := steps !b [Enrol hc];
            held := -1; acc_held := false; b := settle !b;
            snapshot !b ^ ":" ^ admitted hc
          end
        | 'H' -> if List.mem i !opened then b := tl_step !b (THello c); "hello"
        | 'L' ->
          if List.mem i !opened && tl_shake_ok !b c then (b := tl_step !b (TShake c); "ok") else "refused"
        | 'M' ->
          if List.mem i !opened && tl_req_ok !b c then (b := tl_step !b (TPart c); "part") else "closed"
        | 'R' ->
          if List.mem i !opened && tl_req_ok !b c then (b := tl_step !b (TSrv (Req c)); "resp+1") else "closed+0"
        | 'D' ->
          if List.mem i !opened then begin
            b := steps !b [End (c, Disconnect); Remove c];
            opened := List.filter (fun j -> j <> i) !opened
          end;
          snapshot !b
        | _ -> "?") ops in
    let m = String.concat " " (out @ [Printf.sprintf "calls=%d" (int_of_nat (!b).tl_calls)]) in
    (m, if m = impl then "1" else "0")
  | _ -> failwith "tlsstop: bad input"

let () = Registry.register "tlsstop" tlsstop
