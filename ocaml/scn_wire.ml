(* scenarios of the wire layer: client calls (cc), server sessions (srv) *)
open Model
open Conv
open Lib_wire

(* client call:  fr unit e w end chunks  op...   ->   result writes consumed *)
let cc inp impl =
  match inp with
  | fr :: unit :: e :: w :: send :: chunks :: optoks ->
    let cfg = { c_unit = n_of_hex unit; c_endian = endian_of e; c_word = word_of w } in
    let framing = if fr = "m" then FMbap else FRtu in
    let stream = List.concat (chunks_of chunks) in
    let o = op_of_tokens optoks in
    let r = client_call framing cfg N0 o (send_of send) stream in
    let consumed = List.length stream - List.length r.cr_rest in
    let rs = result_str r.cr_res in
    let m = Printf.sprintf "%s %s %d" rs (csv_of_list hex_of_bytes r.cr_writes) consumed in
    (* P: the implementation's outcome, projected to what the property
       distinguishes, equals the (proved sound and complete) model's; and it
       transmits exactly the model's (= the spec's, C01) request frames *)
    let p = (match String.split_on_char ' ' impl with
        | [ir; iw; _] ->
          if project ir = project rs && iw = csv_of_list hex_of_bytes r.cr_writes then "1" else "0"
        | _ -> "0") in
    (m, p)
  | _ -> failwith "cc: bad input"

(* server session:  end chunks script   ->   events
   (the scripted handler is the extracted Model/ScriptHandler.v) *)
let srv inp impl =
  match inp with
  | [send; chunks; script] ->
    let stream = List.concat (chunks_of chunks) in
    let sc = if script = "-" then [] else List.map beh_of_tok (String.split_on_char ',' script) in
    let evs = sh_run sc (send_of send) stream in
    let m = String.concat ";" (List.map event_str evs) in
    (m, if m = impl then "1" else "0")
  | _ -> failwith "srv: bad input"

(* client history on one client / one connection: unread bytes carry over *)
let ch inp impl =
  match inp with
  | fr :: unit :: e :: w :: rest ->
    let framing = if fr = "m" then FMbap else FRtu in
    let cfg = ref { c_unit = n_of_hex unit; c_endian = endian_of e; c_word = word_of w } in
    let txn = ref N0 and left = ref [] and closed = ref Stall in
    let outs = ref [] and pouts = ref [] in
    let step = ref [] in
    let flush () =
      (match List.rev !step with
       | "call" :: send :: chunks :: optoks ->
         let stream = !left @ List.concat (chunks_of chunks) in
         (match send_of send with Stall -> () | x -> closed := x);
         let r = client_call framing !cfg !txn (op_of_tokens optoks) !closed stream in
         let consumed = List.length stream - List.length r.cr_rest in
         left := r.cr_rest; txn := r.cr_txn;
         let rs = result_str r.cr_res in
         let ws = csv_of_list hex_of_bytes r.cr_writes in
         outs := Printf.sprintf "%s %s %d" rs ws consumed :: !outs;
         pouts := (project rs ^ " " ^ ws) :: !pouts
       | "callwf" :: optoks ->
         (* the Write call fails after part of the frame went out (tcp_transport.go
            ExecuteRequest: the counter is advanced BEFORE the write, so the id is
            consumed; the error is a deadline error, mapped to request-timed-out);
            nothing is read *)
         (match client_request !cfg (op_of_tokens optoks) with
          | Ok req ->
            (match framing with
             | FMbap ->
               txn := u16 (N.add !txn (n_of_int 1));
               let ws = hex_of_bytes (assemble_mbap !txn req) in
               outs := ("err:timeout " ^ ws ^ " 0") :: !outs; pouts := ("err:timeout " ^ ws) :: !pouts
             | FRtu ->
               let ws = hex_of_bytes (assemble_rtu req) in
               outs := ("err:timeout " ^ ws ^ " 0") :: !outs; pouts := ("err:timeout " ^ ws) :: !pouts)
          | _ -> outs := "err:params - 0" :: !outs; pouts := "err:params -" :: !pouts)
       | ["setunit"; u] -> cfg := { !cfg with c_unit = n_of_hex u }; outs := "ok" :: !outs; pouts := "ok" :: !pouts
       | ["setenc"; e; w] ->
         let ok v = v = "1" || v = "2" in
         let o = if ok e && ok w then (cfg := { !cfg with c_endian = endian_of e; c_word = word_of w }; "ok:u")
           else "err:params" in
         outs := o :: !outs; pouts := o :: !pouts
       | [] -> ()
       | _ -> failwith "ch: bad step");
      step := [] in
    List.iter (fun t -> if t = ";" then flush () else step := t :: !step) rest;
    flush ();
    let m = String.concat ";" (List.rev !outs) in
    (* P: per step, projected outcome and transmitted frames agree *)
    let ip = List.map (fun s -> match String.split_on_char ' ' s with
        | [r; w; _] -> project r ^ " " ^ w | [x] -> x | _ -> "?") (String.split_on_char ';' impl) in
    (m, if ip = List.rev !pouts then "1" else "0")
  | _ -> failwith "ch: bad input"

(* txreal: what the loopback peer of a really opened client sees *)
let txreal inp impl =
  match inp with
  | scheme :: unit :: e :: w :: optoks ->
    let cfg = { c_unit = n_of_hex unit; c_endian = endian_of e; c_word = word_of w } in
    let (framing, kind) = match scheme with
      | "tcp" -> (FMbap, "tcp") | "udp" -> (FMbap, "udp") | "tcp+tls" -> (FMbap, "tls")
      | "rtuovertcp" -> (FRtu, "tcp") | "rtuoverudp" -> (FRtu, "udp") | _ -> (FRtu, "serial") in
    let r = client_call framing cfg N0 (op_of_tokens optoks) Stall [] in
    let frame = match r.cr_writes with [] -> "none" | f :: _ -> hex_of_bytes f in
    let res = match r.cr_res with Err EParams -> "params" | _ -> "sent" in
    let m = Printf.sprintf "%s %s %s" kind frame res in
    if impl = "skipped:pty" then (impl, "1") else (m, if m = impl then "1" else "0")
  | _ -> failwith "txreal: bad input"

let () = Registry.register "txreal" txreal; Registry.register "cc" cc; Registry.register "srv" srv; Registry.register "ch" ch
