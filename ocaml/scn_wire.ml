(* scenarios of the wire layer: client calls (cc), server sessions (srv) *)
open Model
open Conv
open Lib_wire

(* client call:  fr unit e w end chunks  op...   ->   result writes consumed *)
let cc inp impl =
  match inp with
  | fr :: unit :: e :: w :: send :: chunks :: optoks ->
    let cfg = { c_unit = n_of_hex unit; c_endian = endian_of e; c_word = word_of w } in
    let framing = if fr = "m" then FMbap else FRtu in
    let stream = List.concat (chunks_of chunks) in
    let o = op_of_tokens optoks in
    let r = client_call framing cfg N0 o (if send = "c" then Closed else Stall) stream in
    let consumed = List.length stream - List.length r.cr_rest in
    let rs = result_str r.cr_res in
    let m = Printf.sprintf "%s %s %d" rs (csv_of_list hex_of_bytes r.cr_writes) consumed in
    (* P: the implementation's outcome, projected to what the property
       distinguishes, equals the (proved sound and complete) model's; and it
       transmits exactly the model's (= the spec's, C01) request frames *)
    let p = (match String.split_on_char ' ' impl with
        | [ir; iw; _] ->
          if project ir = project rs && iw = csv_of_list hex_of_bytes r.cr_writes then "1" else "0"
        | _ -> "0") in
    (m, p)
  | _ -> failwith "cc: bad input"

(* server session:  end chunks script   ->   events *)
let srv inp impl =
  match inp with
  | [send; chunks; script] ->
    let stream = List.concat (chunks_of chunks) in
    let sc = if script = "-" then [||] else Array.of_list (String.split_on_char ',' script) in
    let evs = server_run (script_handler sc) 0 (if send = "c" then Closed else Stall) stream in
    let m = String.concat ";" (List.map event_str evs) in
    (m, if m = impl then "1" else "0")
  | _ -> failwith "srv: bad input"

let () = Registry.register "cc" cc; Registry.register "srv" srv
